// C20Puts: for every function of the pooled-object users in /repo (root package, socket,
// proto/*, xfer/gzip, mixer/websocket) and every local variable that is handed to a pool's Put
// (socket.PutMessage, peer.putContext, utils.ReleaseArgs, utils.ReleaseByteBuffer): the largest
// and smallest number of Puts of that variable along any path through the function, deferred
// calls included. An object put twice is handed by the pool to two holders.
// Emits coq/theories/Generated/C20Puts.v; obligation: Properties/C20Table.v
// C20_each_object_put_at_most_once.
package main

import (
	"fmt"
	"go/ast"
	"go/parser"
	"go/token"
	"os"
	"path/filepath"
	"sort"
	"strings"
)

func init() { register("C20Puts", genC20Puts) }

var c20PutDirs = []string{".", "socket", "proto/rawproto", "proto/jsonproto", "proto/pbproto", "proto/httproto", "proto/thriftproto", "xfer/gzip", "mixer/websocket", "mixer/multiclient", "mixer/evio", "plugin/proxy", "plugin/secure", "plugin/auth", "plugin/heartbeat", "plugin/ignorecase", "plugin/overloader", "plugin/binder"}

var c20PutNames = map[string]bool{"PutMessage": true, "putContext": true, "ReleaseArgs": true, "ReleaseByteBuffer": true}

// c20PutVar: the variable put by the call, or "".
func c20PutVar(call *ast.CallExpr) string {
	var name string
	switch f := call.Fun.(type) {
	case *ast.SelectorExpr:
		name = f.Sel.Name
	case *ast.Ident:
		name = f.Name
	}
	if !c20PutNames[name] || len(call.Args) == 0 {
		return ""
	}
	if id, ok := call.Args[0].(*ast.Ident); ok {
		return id.Name
	}
	return ""
}

type c20Path struct {
	counts   map[string]int
	defers   []ast.Node      // *ast.CallExpr (direct put) or *ast.BlockStmt (deferred closure body), in order of registration
	returned map[string]bool // variables a result of the return statement that ended the path is read out of
}

// c20RootIdent: the identifier a value is read out of (selectors, indexing, slicing, method
// calls on it, address-of, dereference); "" for anything else (results of functions that
// merely take the variable as an argument are values of their own).
func c20RootIdent(e ast.Expr) string {
	switch x := e.(type) {
	case *ast.Ident:
		return x.Name
	case *ast.SelectorExpr:
		return c20RootIdent(x.X)
	case *ast.IndexExpr:
		return c20RootIdent(x.X)
	case *ast.SliceExpr:
		return c20RootIdent(x.X)
	case *ast.ParenExpr:
		return c20RootIdent(x.X)
	case *ast.StarExpr:
		return c20RootIdent(x.X)
	case *ast.UnaryExpr:
		return c20RootIdent(x.X)
	case *ast.CallExpr:
		if sel, ok := x.Fun.(*ast.SelectorExpr); ok {
			return c20RootIdent(sel.X)
		}
	}
	return ""
}

func (p c20Path) clone() c20Path {
	q := c20Path{counts: map[string]int{}, defers: append([]ast.Node(nil), p.defers...), returned: map[string]bool{}}
	for k, v := range p.counts {
		q.counts[k] = v
	}
	for k := range p.returned {
		q.returned[k] = true
	}
	return q
}

type c20Analysis struct {
	fn      string
	escapes map[string]bool   // var put into its pool on a path whose return statement still mentions it
	results map[string][2]int // var -> (min, max) over finished paths
	subs    []c20Sub          // closures and loop bodies analysed on their own
	nsub    int
	budget  int
}

type c20Sub struct {
	name string
	body *ast.BlockStmt
}

const c20MaxPaths = 20000

func (a *c20Analysis) finish(p c20Path, seen map[string]bool) {
	for v := range seen {
		c := p.counts[v]
		if c > 0 && p.returned[v] {
			if a.escapes == nil {
				a.escapes = map[string]bool{}
			}
			a.escapes[v] = true
		}
		if r, ok := a.results[v]; ok {
			if c < r[0] {
				r[0] = c
			}
			if c > r[1] {
				r[1] = c
			}
			a.results[v] = r
		} else {
			a.results[v] = [2]int{c, c}
		}
	}
}

// exit runs the deferred calls (last registered first) and records the finished paths.
func (a *c20Analysis) exit(p c20Path, seen map[string]bool) {
	paths := []c20Path{p}
	for i := len(p.defers) - 1; i >= 0; i-- {
		var next []c20Path
		for _, q := range paths {
			switch d := p.defers[i].(type) {
			case *ast.CallExpr:
				if v := c20PutVar(d); v != "" {
					q.counts[v]++
					seen[v] = true
				}
				next = append(next, q)
			case *ast.BlockStmt:
				q.defers = nil
				ft, ex := a.stmts(d.List, []c20Path{q}, seen, false)
				next = append(next, ft...)
				next = append(next, ex...)
			}
		}
		paths = next
	}
	for _, q := range paths {
		a.finish(q, seen)
	}
}

func (a *c20Analysis) sub(kind string, body *ast.BlockStmt) {
	for _, s := range a.subs { // the same body is reached once per incoming path
		if s.body == body {
			return
		}
	}
	a.nsub++
	a.subs = append(a.subs, c20Sub{name: fmt.Sprintf("%s.%s%d", a.fn, kind, a.nsub), body: body})
}

// funcLits registers every function literal inside e (not deferred ones) as a separate unit.
func (a *c20Analysis) funcLits(n ast.Node) {
	if n == nil {
		return
	}
	ast.Inspect(n, func(x ast.Node) bool {
		if fl, ok := x.(*ast.FuncLit); ok {
			a.sub("func", fl.Body)
			return false
		}
		return true
	})
}

// stmts executes a statement list on every incoming path; returns the paths that fall through
// and the paths that left (return; break/continue when inLoop).
func (a *c20Analysis) stmts(list []ast.Stmt, in []c20Path, seen map[string]bool, inLoop bool) (ft, ex []c20Path) {
	cur := in
	for _, st := range list {
		if len(cur) == 0 {
			break
		}
		var next []c20Path
		for _, p := range cur {
			f, e := a.stmt(st, p, seen, inLoop)
			next = append(next, f...)
			ex = append(ex, e...)
		}
		if len(next) > c20MaxPaths {
			next = next[:c20MaxPaths]
			a.budget++
		}
		cur = next
	}
	return cur, ex
}

func (a *c20Analysis) stmt(st ast.Stmt, p c20Path, seen map[string]bool, inLoop bool) (ft, ex []c20Path) {
	switch x := st.(type) {
	case *ast.ExprStmt:
		if call, ok := x.X.(*ast.CallExpr); ok {
			if v := c20PutVar(call); v != "" {
				p.counts[v]++
				seen[v] = true
				return []c20Path{p}, nil
			}
			if id, ok := call.Fun.(*ast.Ident); ok && id.Name == "panic" {
				return nil, []c20Path{p}
			}
		}
		a.funcLits(x.X)
		return []c20Path{p}, nil
	case *ast.AssignStmt:
		for _, r := range x.Rhs {
			a.funcLits(r)
		}
		// a variable that receives a new object starts a new life
		for _, l := range x.Lhs {
			if id, ok := l.(*ast.Ident); ok {
				if _, had := p.counts[id.Name]; had && len(x.Rhs) > 0 {
					if _, isCall := x.Rhs[0].(*ast.CallExpr); isCall {
						p.counts[id.Name] = 0
					}
				}
			}
		}
		return []c20Path{p}, nil
	case *ast.DeferStmt:
		if fl, ok := x.Call.Fun.(*ast.FuncLit); ok {
			p.defers = append(p.defers, fl.Body)
		} else {
			p.defers = append(p.defers, x.Call)
		}
		return []c20Path{p}, nil
	case *ast.GoStmt:
		a.funcLits(x.Call)
		return []c20Path{p}, nil
	case *ast.ReturnStmt:
		for _, r := range x.Results {
			a.funcLits(r)
			// the variable the returned value is rooted in: v, v.F, v.F[i:j], v.M(), &v.F, *v
			if root := c20RootIdent(r); root != "" {
				if p.returned == nil {
					p.returned = map[string]bool{}
				}
				p.returned[root] = true
			}
		}
		return nil, []c20Path{p}
	case *ast.BranchStmt:
		if inLoop && (x.Tok == token.BREAK || x.Tok == token.CONTINUE) {
			return nil, []c20Path{p}
		}
		return []c20Path{p}, nil
	case *ast.BlockStmt:
		return a.stmts(x.List, []c20Path{p}, seen, inLoop)
	case *ast.LabeledStmt:
		return a.stmt(x.Stmt, p, seen, inLoop)
	case *ast.IfStmt:
		a.funcLits(x.Cond)
		start := []c20Path{p}
		if x.Init != nil {
			f, e := a.stmt(x.Init, p, seen, inLoop)
			ex = append(ex, e...)
			start = f
		}
		for _, q := range start {
			f, e := a.stmts(x.Body.List, []c20Path{q.clone()}, seen, inLoop)
			ft = append(ft, f...)
			ex = append(ex, e...)
			if x.Else != nil {
				f, e = a.stmt(x.Else, q.clone(), seen, inLoop)
				ft = append(ft, f...)
				ex = append(ex, e...)
			} else {
				ft = append(ft, q.clone())
			}
		}
		return ft, ex
	case *ast.ForStmt:
		a.sub("loop", x.Body)
		return []c20Path{p}, nil
	case *ast.RangeStmt:
		a.sub("loop", x.Body)
		return []c20Path{p}, nil
	case *ast.SwitchStmt, *ast.TypeSwitchStmt, *ast.SelectStmt:
		var body *ast.BlockStmt
		switch y := x.(type) {
		case *ast.SwitchStmt:
			body = y.Body
		case *ast.TypeSwitchStmt:
			body = y.Body
		case *ast.SelectStmt:
			body = y.Body
		}
		hasDefault := false
		for _, c := range body.List {
			var cl []ast.Stmt
			switch cc := c.(type) {
			case *ast.CaseClause:
				cl = cc.Body
				if cc.List == nil {
					hasDefault = true
				}
			case *ast.CommClause:
				cl = cc.Body
				if cc.Comm == nil {
					hasDefault = true
				}
			}
			f, e := a.stmts(cl, []c20Path{p.clone()}, seen, false)
			ft = append(ft, f...)
			// a break inside a clause just ends the clause; returns leave the function
			ex = append(ex, e...)
		}
		if !hasDefault {
			ft = append(ft, p.clone())
		}
		return ft, ex
	}
	return []c20Path{p}, nil
}

func (a *c20Analysis) run(body *ast.BlockStmt, isLoop bool) {
	seen := map[string]bool{}
	start := c20Path{counts: map[string]int{}}
	ft, ex := a.stmts(body.List, []c20Path{start}, seen, isLoop)
	for _, p := range append(ft, ex...) {
		a.exit(p, seen)
	}
}

type c20PutRow struct {
	Func, Var string
	Min, Max  int
}

func genC20Puts(repo string) (string, string, error) {
	var rows []c20PutRow
	var escapes [][2]string
	truncated := 0
	for _, dir := range c20PutDirs {
		full := filepath.Join(repo, dir)
		if _, err := os.Stat(full); err != nil {
			continue
		}
		fset := token.NewFileSet()
		pkgs, err := parser.ParseDir(fset, full, func(fi os.FileInfo) bool {
			return !strings.HasSuffix(fi.Name(), "_test.go")
		}, 0)
		if err != nil {
			return "", "", err
		}
		for pname, pkg := range pkgs {
			if strings.HasSuffix(pname, "_test") || pname == "main" {
				continue
			}
			var fnames []string
			for fn := range pkg.Files {
				fnames = append(fnames, fn)
			}
			sort.Strings(fnames)
			for _, fn := range fnames {
				for _, d := range pkg.Files[fn].Decls {
					fd, ok := d.(*ast.FuncDecl)
					if !ok || fd.Body == nil {
						continue
					}
					name := fd.Name.Name
					if r := c20RecvTypeName(fd); r != "" {
						name = r + "." + name
					}
					name = pname + "." + name
					type unit struct {
						name string
						body *ast.BlockStmt
						loop bool
					}
					queue := []unit{{name, fd.Body, false}}
					for len(queue) > 0 {
						u := queue[0]
						queue = queue[1:]
						a := &c20Analysis{fn: u.name, results: map[string][2]int{}}
						a.run(u.body, u.loop)
						truncated += a.budget
						var vars []string
						for v := range a.results {
							vars = append(vars, v)
						}
						sort.Strings(vars)
						for _, v := range vars {
							rows = append(rows, c20PutRow{u.name, v, a.results[v][0], a.results[v][1]})
							if a.escapes[v] {
								escapes = append(escapes, [2]string{u.name, v})
							}
						}
						for _, s := range a.subs {
							queue = append(queue, unit{s.name, s.body, strings.Contains(s.name[len(u.name):], "loop")})
						}
					}
				}
			}
		}
	}
	sort.SliceStable(rows, func(i, j int) bool {
		if rows[i].Func != rows[j].Func {
			return rows[i].Func < rows[j].Func
		}
		return rows[i].Var < rows[j].Var
	})
	var b strings.Builder
	b.WriteString("(* GENERATED by translator/gen_c20puts.go from the current source of /repo - do not edit.\n")
	b.WriteString("   (function or closure/loop body, variable, fewest, most) Puts of that variable into its pool\n")
	b.WriteString("   (PutMessage / putContext / ReleaseArgs / ReleaseByteBuffer) along any path, deferred calls included. *)\n")
	b.WriteString("From Coq Require Import Strings.String Strings.Byte.\nFrom Coq Require Import List Bool.\nImport ListNotations.\nLocal Open Scope string_scope.\n\n")
	b.WriteString("Definition c20_puts : list (string * string * nat * nat) := [\n")
	for i, r := range rows {
		sep := ";"
		if i == len(rows)-1 {
			sep = ""
		}
		fmt.Fprintf(&b, "  (%s, %s, %d, %d)%s\n", c20CoqStr(r.Func), c20CoqStr(r.Var), r.Min, r.Max, sep)
	}
	b.WriteString("].\n\n")
	fmt.Fprintf(&b, "(* path sets cut at %d paths during the analysis (0 = every path was followed) *)\nDefinition c20_puts_truncated : nat := %d.\n\n", c20MaxPaths, truncated)
	sort.Slice(escapes, func(i, j int) bool { return escapes[i][0]+"/"+escapes[i][1] < escapes[j][0]+"/"+escapes[j][1] })
	b.WriteString("(* (function, variable): some path puts the variable into its pool (deferred calls included) and ends in a\n   return statement one of whose results is read out of it (v, v.F, v.F[i:j], v.M()) - the caller receives (part of) an object the pool may hand\n   to somebody else at once. *)\n")
	b.WriteString("Definition c20_put_and_returned : list (string * string) := [\n")
	for i, e := range escapes {
		sep := ";"
		if i == len(escapes)-1 {
			sep = ""
		}
		fmt.Fprintf(&b, "  (%s, %s)%s\n", c20CoqStr(e[0]), c20CoqStr(e[1]), sep)
	}
	b.WriteString("].\n")
	return b.String(), "", nil
}
