// C20Reset: for every pooled struct of /repo, the struct's field list and what its reset
// routine does to each field, parsed from the CURRENT source; plus the ordered method calls
// made by the pool entry points (PutMessage, ReleaseArgs, getContext, GetSocket,
// BufferPool.Put). Emits coq/theories/Generated/C20Reset.v (definitions only); the
// obligations over it live in coq/theories/Properties/C20Table.v.
package main

import (
	"bytes"
	"encoding/json"
	"fmt"
	"go/ast"
	"go/parser"
	"go/printer"
	"go/token"
	"os"
	"path/filepath"
	"sort"
	"strings"
)

func init() { register("C20Reset", genC20Reset) }

type c20Target struct {
	Dir    string // package directory relative to the repository root
	Struct string
	Reset  string // name of the reset method
}

var c20Targets = []c20Target{
	{"socket", "message", "Reset"},
	{".", "handlerCtx", "clean"},
	{"socket", "socket", "Reset"},
	{"utils", "Args", "Reset"},
	{"xfer", "XferPipe", "Reset"},
	{"utils", "ByteBuffer", "Reset"},
}

type c20Site struct {
	Dir  string
	Recv string // "" for a plain function
	Func string
}

var c20Sites = []c20Site{
	{"socket", "", "PutMessage"},
	{"socket", "", "GetMessage"},
	{"utils", "", "ReleaseArgs"},
	{".", "peer", "getContext"},
	{".", "peer", "putContext"},
	{"socket", "", "GetSocket"},
	{"utils", "BufferPool", "Put"},
}

type c20Field struct {
	Struct, Field, Type, Kind, Rhs string
	Cond                           bool
}

type c20Pkg struct {
	fset  *token.FileSet
	files []*ast.File
}

func c20Load(repo, dir string) (*c20Pkg, error) {
	fset := token.NewFileSet()
	pkgs, err := parser.ParseDir(fset, filepath.Join(repo, dir), func(fi os.FileInfo) bool {
		return !strings.HasSuffix(fi.Name(), "_test.go")
	}, 0)
	if err != nil {
		return nil, err
	}
	p := &c20Pkg{fset: fset}
	names := []string{}
	for n := range pkgs {
		names = append(names, n)
	}
	sort.Strings(names)
	for _, n := range names {
		if strings.HasSuffix(n, "_test") {
			continue
		}
		fns := []string{}
		for fn := range pkgs[n].Files {
			fns = append(fns, fn)
		}
		sort.Strings(fns)
		for _, fn := range fns {
			p.files = append(p.files, pkgs[n].Files[fn])
		}
	}
	return p, nil
}

func (p *c20Pkg) text(n ast.Node) string {
	var b bytes.Buffer
	printer.Fprint(&b, p.fset, n)
	return strings.Join(strings.Fields(b.String()), " ")
}

func (p *c20Pkg) structType(name string) *ast.StructType {
	for _, f := range p.files {
		for _, d := range f.Decls {
			gd, ok := d.(*ast.GenDecl)
			if !ok || gd.Tok != token.TYPE {
				continue
			}
			for _, sp := range gd.Specs {
				ts := sp.(*ast.TypeSpec)
				if st, ok := ts.Type.(*ast.StructType); ok && ts.Name.Name == name {
					return st
				}
			}
		}
	}
	return nil
}

func c20RecvTypeName(fd *ast.FuncDecl) string {
	if fd.Recv == nil || len(fd.Recv.List) == 0 {
		return ""
	}
	t := fd.Recv.List[0].Type
	if s, ok := t.(*ast.StarExpr); ok {
		t = s.X
	}
	if id, ok := t.(*ast.Ident); ok {
		return id.Name
	}
	return ""
}

func (p *c20Pkg) funcDecl(recv, name string) *ast.FuncDecl {
	for _, f := range p.files {
		for _, d := range f.Decls {
			if fd, ok := d.(*ast.FuncDecl); ok && fd.Name.Name == name && c20RecvTypeName(fd) == recv && fd.Body != nil {
				return fd
			}
		}
	}
	return nil
}

func c20EmbeddedName(t ast.Expr) string {
	switch x := t.(type) {
	case *ast.StarExpr:
		return c20EmbeddedName(x.X)
	case *ast.SelectorExpr:
		return x.Sel.Name
	case *ast.Ident:
		return x.Name
	}
	return "?"
}

// c20FieldOf returns the first-level field name when e is recv.f or recv.f.g...
func c20FieldOf(e ast.Expr, recv string) (string, bool) {
	for {
		switch x := e.(type) {
		case *ast.SelectorExpr:
			if id, ok := x.X.(*ast.Ident); ok && id.Name == recv {
				return x.Sel.Name, true
			}
			e = x.X
		case *ast.ParenExpr:
			e = x.X
		case *ast.IndexExpr:
			e = x.X
		case *ast.StarExpr:
			e = x.X
		default:
			return "", false
		}
	}
}

type c20Walker struct {
	p       *c20Pkg
	typ     string
	fields  map[string]*c20Field
	visited map[string]bool
	subst   map[string]ast.Expr // parameter name -> argument expression of the self call being followed
}

func (w *c20Walker) resolve(rhs ast.Expr) ast.Expr {
	if id, ok := rhs.(*ast.Ident); ok && w.subst != nil {
		if a, ok := w.subst[id.Name]; ok {
			return a
		}
	}
	return rhs
}

func (w *c20Walker) classify(rhs ast.Expr, recv, field string) string {
	switch x := rhs.(type) {
	case *ast.BasicLit:
		if x.Value == "0" || x.Value == `""` {
			return "zero"
		}
		return "other"
	case *ast.Ident:
		if x.Name == "nil" || x.Name == "false" {
			return "zero"
		}
		return "ident"
	case *ast.SelectorExpr:
		return "ident"
	case *ast.SliceExpr:
		// recv.field[:0]
		if f, ok := c20FieldOf(x.X, recv); ok && f == field && x.Low == nil && x.Max == nil {
			if lit, ok := x.High.(*ast.BasicLit); ok && lit.Value == "0" {
				return "trunc0"
			}
		}
		return "other"
	case *ast.CallExpr:
		return "call"
	case *ast.CompositeLit:
		return "call"
	}
	return "other"
}

func (w *c20Walker) set(field, kind, rhs string, cond bool) {
	f, ok := w.fields[field]
	if !ok {
		return
	}
	f.Kind, f.Rhs, f.Cond = kind, rhs, cond
}

func (w *c20Walker) walkMethod(name string, cond bool, args []ast.Expr) {
	if w.visited[name] {
		return
	}
	w.visited[name] = true
	fd := w.p.funcDecl(w.typ, name)
	if fd == nil || len(fd.Recv.List[0].Names) == 0 {
		return
	}
	recv := fd.Recv.List[0].Names[0].Name
	saved := w.subst
	w.subst = map[string]ast.Expr{}
	i := 0
	for _, prm := range fd.Type.Params.List {
		for _, n := range prm.Names {
			if _, variadic := prm.Type.(*ast.Ellipsis); !variadic && i < len(args) {
				w.subst[n.Name] = args[i]
			}
			i++
		}
	}
	w.walkStmts(fd.Body.List, recv, cond)
	w.subst = saved
}

func (w *c20Walker) walkStmts(list []ast.Stmt, recv string, cond bool) {
	for _, st := range list {
		w.walkStmt(st, recv, cond)
	}
}

func (w *c20Walker) walkCall(call *ast.CallExpr, recv string, cond bool) {
	sel, ok := call.Fun.(*ast.SelectorExpr)
	if !ok {
		return
	}
	// recv.Method(...): follow into the method of the same type
	if id, ok := sel.X.(*ast.Ident); ok && id.Name == recv {
		w.walkMethod(sel.Sel.Name, cond, call.Args)
		return
	}
	// atomic.StoreXxx(&recv.f, v)
	if id, ok := sel.X.(*ast.Ident); ok && id.Name == "atomic" && strings.HasPrefix(sel.Sel.Name, "Store") && len(call.Args) == 2 {
		if u, ok := call.Args[0].(*ast.UnaryExpr); ok && u.Op == token.AND {
			if f, ok := c20FieldOf(u.X, recv); ok {
				w.set(f, "atomic", w.p.text(call.Args[1]), cond)
			}
		}
		return
	}
	// recv.f.Method(...): a nested reset-like call on the field
	if f, ok := c20FieldOf(sel.X, recv); ok {
		switch sel.Sel.Name {
		case "Lock", "Unlock", "RLock", "RUnlock":
			return // taking a lock is not a reset of the lock field
		}
		// only the LAST nested call on a field is kept, with its method name
		w.set(f, "nested", sel.Sel.Name, cond)
	}
}

func (w *c20Walker) walkStmt(st ast.Stmt, recv string, cond bool) {
	switch x := st.(type) {
	case *ast.AssignStmt:
		for i, lhs := range x.Lhs {
			f, ok := c20FieldOf(lhs, recv)
			if !ok {
				continue
			}
			if _, direct := lhs.(*ast.SelectorExpr); !direct || len(x.Lhs) != len(x.Rhs) || x.Tok != token.ASSIGN {
				w.set(f, "other", w.p.text(x), cond)
				continue
			}
			if sel := lhs.(*ast.SelectorExpr); func() bool { id, ok := sel.X.(*ast.Ident); return !ok || id.Name != recv }() {
				// recv.f.g = ... : a partial write into the field
				w.set(f, "other", w.p.text(x), cond)
				continue
			}
			rhs := w.resolve(x.Rhs[i])
			w.set(f, w.classify(rhs, recv, f), w.p.text(rhs), cond)
		}
	case *ast.ExprStmt:
		if call, ok := x.X.(*ast.CallExpr); ok {
			w.walkCall(call, recv, cond)
		}
	case *ast.BlockStmt:
		w.walkStmts(x.List, recv, cond)
	case *ast.IfStmt:
		w.walkStmts(x.Body.List, recv, true)
		if x.Else != nil {
			w.walkStmt(x.Else, recv, true)
		}
	case *ast.ForStmt:
		w.walkStmts(x.Body.List, recv, true)
	case *ast.RangeStmt:
		w.walkStmts(x.Body.List, recv, true)
	case *ast.SwitchStmt:
		for _, c := range x.Body.List {
			w.walkStmts(c.(*ast.CaseClause).Body, recv, true)
		}
	case *ast.DeferStmt:
		w.walkCall(x.Call, recv, cond)
	}
}

// c20CallNames lists, in source order, the names of all selector calls (x.Name(...)) and
// plain calls in a function body.
func c20CallNames(fd *ast.FuncDecl) []string {
	var out []string
	ast.Inspect(fd.Body, func(n ast.Node) bool {
		if call, ok := n.(*ast.CallExpr); ok {
			switch f := call.Fun.(type) {
			case *ast.SelectorExpr:
				out = append(out, f.Sel.Name)
			case *ast.Ident:
				out = append(out, f.Name)
			}
		}
		return true
	})
	return out
}

func c20CoqStr(s string) string { return `"` + strings.ReplaceAll(s, `"`, `""`) + `"` }

func genC20Reset(repo string) (string, string, error) {
	pkgs := map[string]*c20Pkg{}
	load := func(dir string) (*c20Pkg, error) {
		if p, ok := pkgs[dir]; ok {
			return p, nil
		}
		p, err := c20Load(repo, dir)
		if err != nil {
			return nil, err
		}
		pkgs[dir] = p
		return p, nil
	}
	var all []c20Field
	for _, t := range c20Targets {
		p, err := load(t.Dir)
		if err != nil {
			return "", "", err
		}
		st := p.structType(t.Struct)
		if st == nil {
			return "", "", fmt.Errorf("struct %s not found in %s", t.Struct, t.Dir)
		}
		w := &c20Walker{p: p, typ: t.Struct, fields: map[string]*c20Field{}, visited: map[string]bool{}}
		var order []string
		for _, f := range st.Fields.List {
			names := []string{}
			if len(f.Names) == 0 {
				names = append(names, c20EmbeddedName(f.Type))
			}
			for _, n := range f.Names {
				names = append(names, n.Name)
			}
			for _, n := range names {
				w.fields[n] = &c20Field{Struct: t.Struct, Field: n, Type: p.text(f.Type), Kind: "none"}
				order = append(order, n)
			}
		}
		if p.funcDecl(t.Struct, t.Reset) == nil {
			return "", "", fmt.Errorf("method %s.%s not found", t.Struct, t.Reset)
		}
		w.walkMethod(t.Reset, false, nil)
		for _, n := range order {
			all = append(all, *w.fields[n])
		}
	}
	type siteOut struct {
		Name  string
		Calls []string
	}
	var sites []siteOut
	for _, s := range c20Sites {
		p, err := load(s.Dir)
		if err != nil {
			return "", "", err
		}
		name := s.Func
		if s.Recv != "" {
			name = s.Recv + "." + s.Func
		}
		if s.Dir == "." {
			name = "erpc." + name
		} else {
			name = s.Dir + "." + name
		}
		fd := p.funcDecl(s.Recv, s.Func)
		if fd == nil {
			// a vanished entry point is reported as a site without calls: the obligation fails
			sites = append(sites, siteOut{Name: name})
			continue
		}
		sites = append(sites, siteOut{Name: name, Calls: c20CallNames(fd)})
	}

	var b strings.Builder
	b.WriteString("(* GENERATED by translator/gen_c20reset.go from the current source of /repo - do not edit.\n")
	b.WriteString("   One entry per field of every pooled struct: what the struct's reset routine does to it.\n")
	b.WriteString("   kind: none | zero | ident | call | trunc0 | nested | atomic | other ; cond = assigned only under if/for/switch *)\n")
	b.WriteString("From Coq Require Import Strings.String Strings.Byte.\nFrom Coq Require Import List Bool.\nImport ListNotations.\nLocal Open Scope string_scope.\n\n")
	b.WriteString("Record field_reset := mkFR { fr_struct : string; fr_field : string; fr_type : string; fr_kind : string; fr_rhs : string; fr_cond : bool }.\n\n")
	b.WriteString("Definition c20_fields : list field_reset := [\n")
	for i, f := range all {
		sep := ";"
		if i == len(all)-1 {
			sep = ""
		}
		fmt.Fprintf(&b, "  mkFR %s %s %s %s %s %v%s\n", c20CoqStr(f.Struct), c20CoqStr(f.Field), c20CoqStr(f.Type), c20CoqStr(f.Kind), c20CoqStr(f.Rhs), f.Cond, sep)
	}
	b.WriteString("].\n\n")
	b.WriteString("(* pool entry points: every call made in the body, in source order *)\n")
	b.WriteString("Definition c20_pool_sites : list (string * list string) := [\n")
	for i, s := range sites {
		sep := ";"
		if i == len(sites)-1 {
			sep = ""
		}
		q := make([]string, len(s.Calls))
		for j, c := range s.Calls {
			q[j] = c20CoqStr(c)
		}
		fmt.Fprintf(&b, "  (%s, [%s])%s\n", c20CoqStr(s.Name), strings.Join(q, "; "), sep)
	}
	b.WriteString("].\n")
	sum, _ := json.Marshal(map[string]interface{}{"fields": all, "sites": sites})
	return b.String(), string(sum), nil
}
